// Command instrument is the build-time source transformation of DESIGN.md section 2.2: it loads
// the given packages of the repository's current working tree with full type information,
// rewrites map ranges, select statements, go statements, channel operations, sleeps and mutex
// operations into calls of the verifrt runtime, and writes the transformed files plus an
// overlay.json (which also adds the runtime package and injected internal test files) to -out.
// /repo itself is never modified.
package main

import (
	"bytes"
	"encoding/json"
	"flag"
	"fmt"
	"go/ast"
	"go/format"
	"go/token"
	"go/types"
	"os"
	"path/filepath"
	"strings"

	"golang.org/x/tools/go/ast/astutil"
	"golang.org/x/tools/go/packages"
)

const rtPath = "github.com/obolnetwork/charon/verifrt"

var (
	outDir  = flag.String("out", "", "output dir")
	repoDir = flag.String("repo", "/repo", "repo dir")
	rtSrc   = flag.String("rt", "", "verifrt source dir")
	injDir  = flag.String("inject", "", "dir of internal test files to add: <inject>/<pkg rel path>/*.go")
)

type stats struct{ maps, selects, gos, sends, recvs, chanRanges, closes, locks, sleeps, waits int }

func main() {
	flag.Parse()
	cfg := &packages.Config{
		Mode: packages.NeedName | packages.NeedFiles | packages.NeedCompiledGoFiles | packages.NeedSyntax | packages.NeedTypes | packages.NeedTypesInfo | packages.NeedImports,
		Dir:  *repoDir,
	}
	pkgs, err := packages.Load(cfg, flag.Args()...)
	if err != nil {
		fmt.Fprintln(os.Stderr, "instrument: load:", err)
		os.Exit(2)
	}
	os.RemoveAll(*outDir)
	os.MkdirAll(*outDir, 0o755)
	overlay := map[string]string{}
	var total stats
	for _, p := range pkgs {
		if len(p.Errors) > 0 {
			fmt.Fprintln(os.Stderr, "instrument: load errors", p.PkgPath, p.Errors)
			os.Exit(2)
		}
		for i, f := range p.Syntax {
			fn := p.CompiledGoFiles[i]
			if strings.HasSuffix(fn, ".pb.go") || !strings.HasPrefix(fn, *repoDir) {
				continue
			}
			in := &inst{p: p, f: f, fset: p.Fset}
			changed := in.file()
			addStats(&total, in.st)
			if !changed {
				continue
			}
			rel, _ := filepath.Rel(*repoDir, fn)
			dst := filepath.Join(*outDir, rel)
			os.MkdirAll(filepath.Dir(dst), 0o755)
			var buf bytes.Buffer
			if err := format.Node(&buf, p.Fset, f); err != nil {
				panic(fmt.Sprintf("%s: %v", fn, err))
			}
			if err := os.WriteFile(dst, buf.Bytes(), 0o644); err != nil {
				panic(err)
			}
			overlay[fn] = dst
		}
	}
	// runtime package
	ents, _ := os.ReadDir(*rtSrc)
	for _, e := range ents {
		overlay[filepath.Join(*repoDir, "verifrt", e.Name())] = filepath.Join(*rtSrc, e.Name())
	}
	// injected internal test files
	if *injDir != "" {
		filepath.Walk(*injDir, func(path string, fi os.FileInfo, err error) error {
			if err != nil || fi.IsDir() || !strings.HasSuffix(path, ".go") {
				return nil
			}
			rel, _ := filepath.Rel(*injDir, path)
			overlay[filepath.Join(*repoDir, rel)] = path
			return nil
		})
	}
	for _, w := range ptrKeyMaps {
		fmt.Fprintln(os.Stderr, "instrument: note: map range with address-dependent key order left native:", w)
	}
	b, _ := json.MarshalIndent(map[string]any{"Replace": overlay}, "", " ")
	os.WriteFile(filepath.Join(*outDir, "overlay.json"), b, 0o644)
	fmt.Printf("instrumented files=%d stats=%+v\n", len(overlay), total)
}

var ptrKeyMaps []string

// hasAddr reports whether formatting a value of type t can print an address (pointer, channel,
// func, unsafe pointer, or an interface whose dynamic type is unknown).
func hasAddr(t types.Type, depth int) bool {
	if depth > 6 {
		return true
	}
	if _, ok := types.Unalias(t).(*types.TypeParam); ok {
		return false // instantiated with value types (int64, [32]byte) in this code base
	}
	switch u := t.Underlying().(type) {
	case *types.Basic:
		return u.Kind() == types.UnsafePointer || u.Kind() == types.Uintptr
	case *types.Pointer, *types.Chan, *types.Signature:
		return true
	case *types.Interface:
		return true
	case *types.Array:
		return hasAddr(u.Elem(), depth+1)
	case *types.Struct:
		for i := 0; i < u.NumFields(); i++ {
			if hasAddr(u.Field(i).Type(), depth+1) {
				return true
			}
		}
		return false
	}
	return false
}

func addStats(a *stats, b stats) {
	a.maps += b.maps; a.selects += b.selects; a.gos += b.gos; a.sends += b.sends; a.recvs += b.recvs
	a.chanRanges += b.chanRanges; a.closes += b.closes; a.locks += b.locks; a.sleeps += b.sleeps; a.waits += b.waits
}

type inst struct {
	p    *packages.Package
	f    *ast.File
	fset *token.FileSet
	st   stats
	n    int
	used bool
	relabel []*ast.LabeledStmt
	commSet map[ast.Node]bool
}

func (in *inst) tmp(prefix string) string { in.n++; return fmt.Sprintf("verif_%s%d", prefix, in.n) }

func rt(name string) ast.Expr {
	return &ast.SelectorExpr{X: ast.NewIdent("verifrt"), Sel: ast.NewIdent(name)}
}
func call(fn ast.Expr, args ...ast.Expr) *ast.CallExpr { return &ast.CallExpr{Fun: fn, Args: args} }
func id(s string) *ast.Ident                            { return ast.NewIdent(s) }
func define(lhs string, rhs ast.Expr) ast.Stmt {
	return &ast.AssignStmt{Lhs: []ast.Expr{id(lhs)}, Tok: token.DEFINE, Rhs: []ast.Expr{rhs}}
}

func (in *inst) typeOf(e ast.Expr) types.Type {
	if tv, ok := in.p.TypesInfo.Types[e]; ok {
		return tv.Type
	}
	return nil
}

func (in *inst) file() bool {
	// Strip comments except leading build constraints (keeps printer output safe).
	var keep []*ast.CommentGroup
	for _, cg := range in.f.Comments {
		if cg.End() < in.f.Package {
			keep = append(keep, cg)
		}
	}
	in.f.Comments = keep
	// remove doc pointers on decls to avoid dangling comments
	ast.Inspect(in.f, func(n ast.Node) bool {
		switch x := n.(type) {
		case *ast.FuncDecl:
			x.Doc = nil
		case *ast.GenDecl:
			x.Doc = nil
		case *ast.Field:
			x.Doc, x.Comment = nil, nil
		case *ast.ValueSpec:
			x.Doc, x.Comment = nil, nil
		case *ast.TypeSpec:
			x.Doc, x.Comment = nil, nil
		case *ast.ImportSpec:
			x.Doc, x.Comment = nil, nil
		}
		return true
	})

	astutil.Apply(in.f, nil, in.post)
	if in.used {
		astutil.AddImport(in.fset, in.f, rtPath)
		for _, ip := range []string{"time", "sync"} {
			if !astutil.UsesImport(in.f, ip) {
				astutil.DeleteImport(in.fset, in.f, ip)
			}
		}
	}
	return in.used
}

// post is applied bottom-up so inner constructs are rewritten first.
func (in *inst) post(c *astutil.Cursor) bool {
	switch n := c.Node().(type) {
	case *ast.RangeStmt:
		t := in.typeOf(n.X)
		if t == nil {
			return true
		}
		switch t.Underlying().(type) {
		case *types.Map:
			if hasAddr(t.Underlying().(*types.Map).Key(), 0) {
				ptrKeyMaps = append(ptrKeyMaps, in.fset.Position(n.Pos()).String())
				return true
			}
			n.X = call(rt("Map"), n.X)
			in.st.maps++
			in.used = true
		case *types.Chan:
			n.X = call(rt("Chan"), n.X)
			in.st.chanRanges++
			in.used = true
		}
	case *ast.SendStmt:
		if cc, inComm := c.Parent().(*ast.CommClause); inComm && cc.Comm == ast.Stmt(n) {
			return true // the communication of a select case (handled by the select rewrite); a send in the case's body is an ordinary send
		}
		cv, sv := in.tmp("c"), in.tmp("s")
		c.Replace(&ast.BlockStmt{List: []ast.Stmt{
			define(cv, n.Chan),
			define(sv, call(rt("ZeroElemSend"), id(cv))),
			&ast.AssignStmt{Lhs: []ast.Expr{id(sv)}, Tok: token.ASSIGN, Rhs: []ast.Expr{n.Value}},
			&ast.ExprStmt{X: call(rt("Send"), id(cv), id(sv))},
		}})
		in.st.sends++
		in.used = true
	case *ast.UnaryExpr:
		if n.Op != token.ARROW {
			return true
		}
		if in.inCommHeader(c) {
			return true
		}
		// two-value form?
		two := false
		switch p := c.Parent().(type) {
		case *ast.AssignStmt:
			two = len(p.Lhs) == 2 && len(p.Rhs) == 1
		case *ast.ValueSpec:
			two = len(p.Names) == 2 && len(p.Values) == 1
		}
		if two {
			c.Replace(call(rt("Recv2"), n.X))
		} else {
			c.Replace(call(rt("Recv"), n.X))
		}
		in.st.recvs++
		in.used = true
	case *ast.GoStmt:
		c.Replace(in.goStmt(n))
		in.st.gos++
		in.used = true
	case *ast.SelectStmt:
		if lbl, ok := c.Parent().(*ast.LabeledStmt); ok {
			_ = lbl // label handled by moving: replace labeled stmt's Stmt with block whose last stmt is labeled switch
			blk, sw := in.selectStmt(n)
			// put label on the switch, and replace the parent's statement by the block
			labeled := &ast.LabeledStmt{Label: lbl.Label, Stmt: sw}
			blk.List[len(blk.List)-1] = labeled
			lbl.Label = id(in.tmp("L"))
			// keep a label on the block to avoid "label defined and not used"? use blank: replace parent later
			c.Replace(blk)
			// mark parent label for removal
			in.relabel = append(in.relabel, lbl)
		} else {
			blk, _ := in.selectStmt(n)
			c.Replace(blk)
		}
		in.st.selects++
		in.used = true
	case *ast.LabeledStmt:
		for _, l := range in.relabel {
			if l == n {
				c.Replace(n.Stmt)
			}
		}
	case *ast.CallExpr:
		in.callExpr(c, n)
	}
	return true
}

func (in *inst) inCommHeader(c *astutil.Cursor) bool {
	// A receive that is the Comm of a CommClause: parent chain is ExprStmt/AssignStmt whose parent is CommClause with Comm==that stmt.
	// astutil doesn't give grandparents, so detect via recorded set.
	_, ok := in.commRecv()[c.Node()]
	return ok
}

func (in *inst) commRecv() map[ast.Node]bool {
	if in.commSet != nil {
		return in.commSet
	}
	in.commSet = map[ast.Node]bool{}
	ast.Inspect(in.f, func(n ast.Node) bool {
		cc, ok := n.(*ast.CommClause)
		if !ok || cc.Comm == nil {
			return true
		}
		switch s := cc.Comm.(type) {
		case *ast.ExprStmt:
			in.commSet[ast.Unparen(s.X)] = true
		case *ast.AssignStmt:
			if len(s.Rhs) == 1 {
				in.commSet[ast.Unparen(s.Rhs[0])] = true
			}
		}
		return true
	})
	return in.commSet
}

func (in *inst) isConstOrNil(e ast.Expr) bool {
	tv, ok := in.p.TypesInfo.Types[e]
	if !ok {
		return false
	}
	return tv.Value != nil || tv.IsNil()
}

func (in *inst) goStmt(g *ast.GoStmt) ast.Stmt {
	var pre []ast.Stmt
	callx := g.Call
	fn := in.tmp("f")
	var fun ast.Expr = id(fn)
	if fl, ok := callx.Fun.(*ast.FuncLit); ok && len(callx.Args) == 0 {
		// go func(){...}() : run literal directly
		return &ast.ExprStmt{X: call(rt("Go"), fl)}
	}
	if in.isGenericFun(callx.Fun) || in.isBuiltin(callx.Fun) {
		fun = callx.Fun
	} else {
		pre = append(pre, define(fn, callx.Fun))
	}
	var args []ast.Expr
	for _, a := range callx.Args {
		if in.isConstOrNil(a) {
			args = append(args, a)
			continue
		}
		t := in.tmp("a")
		pre = append(pre, define(t, a))
		args = append(args, id(t))
	}
	inner := &ast.CallExpr{Fun: fun, Args: args, Ellipsis: callx.Ellipsis}
	lit := &ast.FuncLit{Type: &ast.FuncType{Params: &ast.FieldList{}}, Body: &ast.BlockStmt{List: []ast.Stmt{&ast.ExprStmt{X: inner}}}}
	pre = append(pre, &ast.ExprStmt{X: call(rt("Go"), lit)})
	return &ast.BlockStmt{List: pre}
}

func (in *inst) isGenericFun(e ast.Expr) bool {
	var idn *ast.Ident
	switch x := ast.Unparen(e).(type) {
	case *ast.Ident:
		idn = x
	case *ast.SelectorExpr:
		idn = x.Sel
	default:
		return false
	}
	_, ok := in.p.TypesInfo.Instances[idn]
	return ok
}

func (in *inst) isBuiltin(e ast.Expr) bool {
	idn, ok := ast.Unparen(e).(*ast.Ident)
	if !ok {
		return false
	}
	_, isB := in.p.TypesInfo.Uses[idn].(*types.Builtin)
	return isB
}

func (in *inst) selectStmt(s *ast.SelectStmt) (*ast.BlockStmt, *ast.SwitchStmt) {
	var pre []ast.Stmt
	k := in.tmp("k")
	type cinfo struct {
		ch, sv, rv, ok string
		send           bool
		def            bool
		clause         *ast.CommClause
		lhs            []ast.Expr
		tok            token.Token
	}
	var cs []*cinfo
	for _, st := range s.Body.List {
		cc := st.(*ast.CommClause)
		ci := &cinfo{clause: cc}
		if cc.Comm == nil {
			ci.def = true
			cs = append(cs, ci)
			continue
		}
		switch cm := cc.Comm.(type) {
		case *ast.SendStmt:
			ci.send = true
			ci.ch, ci.sv = in.tmp("c"), in.tmp("s")
			pre = append(pre, define(ci.ch, cm.Chan))
			pre = append(pre, define(ci.sv, call(rt("ZeroElemSend"), id(ci.ch))))
			pre = append(pre, &ast.AssignStmt{Lhs: []ast.Expr{id(ci.sv)}, Tok: token.ASSIGN, Rhs: []ast.Expr{cm.Value}})
		case *ast.ExprStmt:
			u := ast.Unparen(cm.X).(*ast.UnaryExpr)
			ci.ch, ci.rv, ci.ok = in.tmp("c"), in.tmp("r"), in.tmp("ok")
			pre = append(pre, define(ci.ch, u.X))
		case *ast.AssignStmt:
			u := ast.Unparen(cm.Rhs[0]).(*ast.UnaryExpr)
			ci.ch, ci.rv, ci.ok = in.tmp("c"), in.tmp("r"), in.tmp("ok")
			ci.lhs, ci.tok = cm.Lhs, cm.Tok
			pre = append(pre, define(ci.ch, u.X))
		}
		cs = append(cs, ci)
	}
	// temps for receives
	for _, ci := range cs {
		if ci.def || ci.send {
			continue
		}
		pre = append(pre, define(ci.rv, call(rt("ZeroElem"), id(ci.ch))))
		pre = append(pre, &ast.DeclStmt{Decl: &ast.GenDecl{Tok: token.VAR, Specs: []ast.Spec{&ast.ValueSpec{Names: []*ast.Ident{id(ci.ok)}, Type: id("bool")}}}})
		pre = append(pre, &ast.AssignStmt{Lhs: []ast.Expr{id("_"), id("_")}, Tok: token.ASSIGN, Rhs: []ast.Expr{id(ci.rv), id(ci.ok)}})
	}
	ncomm := 0
	defIdx := -1
	for i, ci := range cs {
		if ci.def {
			defIdx = i
		} else {
			ncomm++
		}
	}
	pre = append(pre, define(k, &ast.BasicLit{Kind: token.INT, Value: "-1"}))
	// polling loop
	got := in.tmp("g")
	iv := in.tmp("i")
	var pollCases []ast.Stmt
	for i, ci := range cs {
		if ci.def {
			continue
		}
		var body ast.Stmt
		if ci.send {
			body = &ast.AssignStmt{Lhs: []ast.Expr{id(got)}, Tok: token.ASSIGN, Rhs: []ast.Expr{call(rt("TrySend"), id(ci.ch), id(ci.sv))}}
		} else {
			body = &ast.AssignStmt{Lhs: []ast.Expr{id(ci.rv), id(ci.ok), id(got)}, Tok: token.ASSIGN, Rhs: []ast.Expr{call(rt("TryRecv"), id(ci.ch))}}
		}
		pollCases = append(pollCases, &ast.CaseClause{List: []ast.Expr{&ast.BasicLit{Kind: token.INT, Value: fmt.Sprint(i)}}, Body: []ast.Stmt{body}})
	}
	if ncomm > 0 {
		idxs := []ast.Expr{}
		for i, ci := range cs {
			if !ci.def {
				idxs = append(idxs, &ast.BasicLit{Kind: token.INT, Value: fmt.Sprint(i)})
			}
		}
		loop := &ast.RangeStmt{Key: id("_"), Value: id(iv), Tok: token.DEFINE, X: call(rt("SelectOrder"), idxs...), Body: &ast.BlockStmt{List: []ast.Stmt{
			define(got, id("false")),
			&ast.SwitchStmt{Tag: id(iv), Body: &ast.BlockStmt{List: pollCases}},
			&ast.IfStmt{Cond: id(got), Body: &ast.BlockStmt{List: []ast.Stmt{
				&ast.AssignStmt{Lhs: []ast.Expr{id(k)}, Tok: token.ASSIGN, Rhs: []ast.Expr{id(iv)}},
				&ast.BranchStmt{Tok: token.BREAK},
			}}},
		}}}
		pre = append(pre, loop)
	}
	// blocking / default
	var blockingCases []ast.Stmt
	for i, ci := range cs {
		if ci.def {
			continue
		}
		set := &ast.AssignStmt{Lhs: []ast.Expr{id(k)}, Tok: token.ASSIGN, Rhs: []ast.Expr{&ast.BasicLit{Kind: token.INT, Value: fmt.Sprint(i)}}}
		var comm ast.Stmt
		if ci.send {
			comm = &ast.SendStmt{Chan: id(ci.ch), Value: id(ci.sv)}
		} else {
			comm = &ast.AssignStmt{Lhs: []ast.Expr{id(ci.rv), id(ci.ok)}, Tok: token.ASSIGN, Rhs: []ast.Expr{&ast.UnaryExpr{Op: token.ARROW, X: id(ci.ch)}}}
		}
		blockingCases = append(blockingCases, &ast.CommClause{Comm: comm, Body: []ast.Stmt{set}})
	}
	var fallback ast.Stmt
	if defIdx >= 0 {
		fallback = &ast.AssignStmt{Lhs: []ast.Expr{id(k)}, Tok: token.ASSIGN, Rhs: []ast.Expr{&ast.BasicLit{Kind: token.INT, Value: fmt.Sprint(defIdx)}}}
	} else {
		fallback = &ast.BlockStmt{List: []ast.Stmt{
			&ast.ExprStmt{X: call(rt("PreBlock"))},
			&ast.SelectStmt{Body: &ast.BlockStmt{List: blockingCases}},
			&ast.ExprStmt{X: call(rt("PostBlock"))},
		}}
	}
	pre = append(pre, &ast.IfStmt{Cond: &ast.BinaryExpr{X: id(k), Op: token.LSS, Y: &ast.BasicLit{Kind: token.INT, Value: "0"}}, Body: &ast.BlockStmt{List: []ast.Stmt{fallback}}})
	// final switch with bodies
	var finalCases []ast.Stmt
	for i, ci := range cs {
		var body []ast.Stmt
		if !ci.def && !ci.send && len(ci.lhs) > 0 {
			rhs := []ast.Expr{id(ci.rv)}
			if len(ci.lhs) == 2 {
				rhs = append(rhs, id(ci.ok))
			}
			body = append(body, &ast.AssignStmt{Lhs: ci.lhs, Tok: ci.tok, Rhs: rhs})
			if ci.tok == token.DEFINE {
				// avoid unused errors if body doesn't use them: they were required used in original, so fine.
			}
		}
		body = append(body, ci.clause.Body...)
		cl := &ast.CaseClause{List: []ast.Expr{&ast.BasicLit{Kind: token.INT, Value: fmt.Sprint(i)}}, Body: body}
		if i == len(cs)-1 {
			cl.List = nil // default: keeps the statement terminating when every clause terminates
		}
		finalCases = append(finalCases, cl)
	}
	sw := &ast.SwitchStmt{Tag: id(k), Body: &ast.BlockStmt{List: finalCases}}
	pre = append(pre, sw)
	return &ast.BlockStmt{List: pre}, sw
}

func (in *inst) callExpr(c *astutil.Cursor, n *ast.CallExpr) {
	// close(ch)
	if idn, ok := n.Fun.(*ast.Ident); ok && idn.Name == "close" && len(n.Args) == 1 {
		if _, isB := in.p.TypesInfo.Uses[idn].(*types.Builtin); isB {
			n.Fun = rt("Close")
			in.st.closes++
			in.used = true
		}
		return
	}
	se, ok := n.Fun.(*ast.SelectorExpr)
	if !ok {
		return
	}
	// time.Sleep
	if obj, ok := in.p.TypesInfo.Uses[se.Sel].(*types.Func); ok && obj.Pkg() != nil {
		if obj.Pkg().Path() == "time" && obj.Name() == "Sleep" && obj.Type().(*types.Signature).Recv() == nil {
			n.Fun = rt("Sleep")
			in.st.sleeps++
			in.used = true
			return
		}
	}
	sel, ok := in.p.TypesInfo.Selections[se]
	if !ok || sel.Kind() != types.MethodVal {
		return
	}
	fn, ok := sel.Obj().(*types.Func)
	if !ok || fn.Pkg() == nil {
		return
	}
	// clockwork.Clock.Sleep (interface method): a sleep on the bubble clock
	if fn.Pkg().Path() == "github.com/jonboulle/clockwork" && fn.Name() == "Sleep" && len(n.Args) == 1 {
		n.Args = []ast.Expr{&ast.SelectorExpr{X: se.X, Sel: se.Sel}, n.Args[0]}
		n.Fun = rt("SleepFn")
		in.st.sleeps++
		in.used = true
		return
	}
	if fn.Pkg().Path() != "sync" {
		return
	}
	recv := fn.Type().(*types.Signature).Recv().Type()
	named := ""
	if p, ok := recv.(*types.Pointer); ok {
		if nt, ok := p.Elem().(*types.Named); ok {
			named = nt.Obj().Name()
		}
	}
	var helper string
	switch named + "." + fn.Name() {
	case "Mutex.Lock":
		helper = "MLock"
	case "Mutex.Unlock":
		helper = "MUnlock"
	case "RWMutex.Lock":
		helper = "RWLock"
	case "RWMutex.Unlock":
		helper = "RWUnlock"
	case "RWMutex.RLock":
		helper = "RWRLock"
	case "RWMutex.RUnlock":
		helper = "RWRUnlock"
	case "Mutex.TryLock":
		helper = "MTryLock"
	case "RWMutex.TryLock":
		helper = "RWTryLock"
	case "RWMutex.TryRLock":
		helper = "RWTryRLock"
	case "WaitGroup.Wait":
		helper = "WGWait"
	default:
		return
	}
	// Build address of the real sync object following implicit embedded fields.
	var x ast.Expr = se.X
	t := sel.Recv()
	idx := sel.Index()
	for _, fi := range idx[:len(idx)-1] {
		st := deref(t).Underlying().(*types.Struct)
		fld := st.Field(fi)
		x = &ast.SelectorExpr{X: x, Sel: id(fld.Name())}
		t = fld.Type()
	}
	if _, isPtr := t.Underlying().(*types.Pointer); !isPtr {
		x = &ast.UnaryExpr{Op: token.AND, X: x}
	}
	n.Fun = rt(helper)
	n.Args = []ast.Expr{x}
	if helper == "WGWait" {
		in.st.waits++
	} else {
		in.st.locks++
	}
	in.used = true
}

func deref(t types.Type) types.Type {
	if p, ok := t.Underlying().(*types.Pointer); ok {
		return p.Elem()
	}
	return t
}
