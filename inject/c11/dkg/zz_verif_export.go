//go:build verif

package dkg

import (
	"context"

	"github.com/libp2p/go-libp2p/core/host"
	"github.com/libp2p/go-libp2p/core/peer"

	"github.com/obolnetwork/charon/cluster"
	"github.com/obolnetwork/charon/dkg/bcast"
	"github.com/obolnetwork/charon/dkg/share"
)

// VerifFrostTransport registers one node's FROST handlers and broadcast callbacks (newFrostP2P), as
// dkg.Run does before the sync protocol releases the ceremony. Added by the verification overlay only.
func VerifFrostTransport(p2pNode host.Host, peers map[peer.ID]cluster.NodeIdx, bcastComp *bcast.Component, threshold, numValidators int) (any, error) {
	return newFrostP2P(p2pNode, peers, bcastComp, threshold, numValidators)
}

// VerifRunFrost runs one node's part of the real FROST ceremony (runFrostParallel) over a transport
// returned by VerifFrostTransport.
func VerifRunFrost(ctx context.Context, tp any, numValidators, numNodes, threshold, shareIdx int, dkgCtx string) ([]share.Share, error) {
	return runFrostParallel(ctx, tp.(*frostP2P), uint32(numValidators), uint32(numNodes), uint32(threshold), uint32(shareIdx), dkgCtx)
}
