//go:build verif

package dkg

import (
	"context"

	eth2p0 "github.com/attestantio/go-eth2-client/spec/phase0"
	"github.com/libp2p/go-libp2p/core/host"
	"github.com/libp2p/go-libp2p/core/peer"

	"github.com/obolnetwork/charon/cluster"
	"github.com/obolnetwork/charon/core"
	"github.com/obolnetwork/charon/dkg/bcast"
	"github.com/obolnetwork/charon/dkg/share"
)

// VerifFrostTransport registers one node's FROST handlers and broadcast callbacks (newFrostP2P), as
// dkg.Run does before the sync protocol releases the ceremony. Added by the verification overlay only.
func VerifFrostTransport(p2pNode host.Host, peers map[peer.ID]cluster.NodeIdx, bcastComp *bcast.Component, threshold, numValidators int) (any, error) {
	return newFrostP2P(p2pNode, peers, bcastComp, threshold, numValidators)
}

// VerifRunFrost runs one node's part of the real FROST ceremony (runFrostParallel) over a transport
// returned by VerifFrostTransport.
func VerifRunFrost(ctx context.Context, tp any, numValidators, numNodes, threshold, shareIdx int, dkgCtx string) ([]share.Share, error) {
	return runFrostParallel(ctx, tp.(*frostP2P), uint32(numValidators), uint32(numNodes), uint32(threshold), uint32(shareIdx), dkgCtx)
}

// VerifWrapBroadcast lets a harness stand between one (faulty) node's FROST rounds and the broadcast
// protocol: wrap receives the node's real broadcast function and returns the one the rounds will call.
// What the node broadcasts still goes through the real signed broadcast protocol.
func VerifWrapBroadcast(tp any, wrap func(bcast.BroadcastFunc) bcast.BroadcastFunc) {
	f := tp.(*frostP2P)
	f.bcastFunc = wrap(f.bcastFunc)
}

// The ceremony's completion stage (dkg.Run after key generation): every node signs the deposit messages and the lock
// hash with its new shares; every node checks the others' partial signatures against the public shares it holds and
// aggregates. These are the repository's own functions, exported for the harness.

func VerifSignDepositMsgs(shares []share.Share, shareIdx int, withdrawalAddresses []string, network string, amount eth2p0.Gwei) (core.ParSignedDataSet, map[core.PubKey]eth2p0.DepositMessage, error) {
	return signDepositMsgs(shares, shareIdx, withdrawalAddresses, network, amount, false)
}

func VerifAggDepositData(data map[core.PubKey][]core.ParSignedData, shares []share.Share, msgs map[core.PubKey]eth2p0.DepositMessage, network string) ([]eth2p0.DepositData, error) {
	return aggDepositData(data, shares, msgs, network)
}

func VerifSignLockHash(shareIdx int, shares []share.Share, hash []byte) (core.ParSignedDataSet, error) {
	return signLockHash(shareIdx, shares, hash)
}

func VerifAggLockHashSig(data map[core.PubKey][]core.ParSignedData, shares map[core.PubKey]share.Share, hash []byte) error {
	_, _, err := aggLockHashSig(data, shares, hash)
	return err
}
