//go:build verif

package dkg

import (
	"context"

	"github.com/libp2p/go-libp2p/core/host"
	"github.com/libp2p/go-libp2p/core/peer"

	"github.com/obolnetwork/charon/cluster"
	"github.com/obolnetwork/charon/dkg/bcast"
	"github.com/obolnetwork/charon/dkg/share"
)

// VerifFrostTransport registers one node's FROST handlers and broadcast callbacks (newFrostP2P), as
// dkg.Run does before the sync protocol releases the ceremony. Added by the verification overlay only.
func VerifFrostTransport(p2pNode host.Host, peers map[peer.ID]cluster.NodeIdx, bcastComp *bcast.Component, threshold, numValidators int) (any, error) {
	return newFrostP2P(p2pNode, peers, bcastComp, threshold, numValidators)
}

// VerifRunFrost runs one node's part of the real FROST ceremony (runFrostParallel) over a transport
// returned by VerifFrostTransport.
func VerifRunFrost(ctx context.Context, tp any, numValidators, numNodes, threshold, shareIdx int, dkgCtx string) ([]share.Share, error) {
	return runFrostParallel(ctx, tp.(*frostP2P), uint32(numValidators), uint32(numNodes), uint32(threshold), uint32(shareIdx), dkgCtx)
}

// VerifWrapBroadcast lets a harness stand between one (faulty) node's FROST rounds and the broadcast
// protocol: wrap receives the node's real broadcast function and returns the one the rounds will call.
// What the node broadcasts still goes through the real signed broadcast protocol.
func VerifWrapBroadcast(tp any, wrap func(bcast.BroadcastFunc) bcast.BroadcastFunc) {
	f := tp.(*frostP2P)
	f.bcastFunc = wrap(f.bcastFunc)
}
