//go:build verif

package qbft

import (
	k1 "github.com/decred/dcrd/dcrec/secp256k1/v4"

	"github.com/obolnetwork/charon/core"
	pbv1 "github.com/obolnetwork/charon/core/corepb/v1"
)

// VerifQueued reports the number of duty instances the component tracks and the number of
// messages queued in their outer receive buffers. Added by the verification overlay only: it is
// the observation point "did a wire message influence consensus state" of the C05 harness.
func (c *Consensus) VerifQueued() (instances int, queued int) {
	c.mutable.Lock()
	defer c.mutable.Unlock()

	for _, inst := range c.mutable.instances {
		queued += len(inst.RecvBuffer)
	}

	return len(c.mutable.instances), queued
}

// VerifQueuedFor reports the number of messages queued in the outer receive buffer of one duty
// (0 when the component tracks no instance for it). Read-only, overlay only.
func (c *Consensus) VerifQueuedFor(duty core.Duty) int {
	c.mutable.Lock()
	defer c.mutable.Unlock()

	inst, ok := c.mutable.instances[duty]
	if !ok {
		return 0
	}

	return len(inst.RecvBuffer)
}

// VerifSignMsg exposes the package's own message signing function (pure: returns a signed copy)
// so that the C05 harness builds authentic messages exactly the way a member does.
func VerifSignMsg(msg *pbv1.QBFTMsg, key *k1.PrivateKey) (*pbv1.QBFTMsg, error) {
	return signMsg(msg, key)
}
