//go:build verif

package qbft

// VerifQueued reports the number of duty instances the component tracks and the number of
// messages queued in their outer receive buffers. Added by the verification overlay only: it is
// the observation point "did a wire message influence consensus state" of the C05 harness.
func (c *Consensus) VerifQueued() (instances int, queued int) {
	c.mutable.Lock()
	defer c.mutable.Unlock()

	for _, inst := range c.mutable.instances {
		queued += len(inst.RecvBuffer)
	}

	return len(c.mutable.instances), queued
}
